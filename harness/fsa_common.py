"""Projection of a live FSA object onto the abstract state of spec/fsa/FSA.tla, the
application of spec actions to the object, and a fingerprint of the *concrete*
representation (dictionary kinds, insertion order, list aliasing) used to deduplicate the
bounded-exhaustive exploration of histories."""
import copy
from collections import defaultdict as _defaultdict


# Edge labels are opaque to the specification.  The harness renders the specification's labels through an alphabet:
# the letters themselves, multi-character generator names, integers (as in kbmag tables).  A label that is not a
# one-character string is what tells add_edges(.., elist=False) (one label) from elist=True (a list of labels).
ALPHABETS = [None,
             {"a": "s0", "b": "t1", "c": "u2"},
             {"a": 0, "b": 1, "c": 2}]


def alphabet_tag(al):
    return "" if al is None else "[labels %s]" % ",".join("%s=%r" % kv for kv in sorted(al.items()))


def tr_edges(al, es):
    return [(t, al[l], h) for (t, l, h) in es]


_TRC = {}


def tr_key(al, key):
    if al is None:
        return key
    ck = (id(al), key)
    r = _TRC.get(ck)
    if r is None:
        r = _TRC[ck] = (key[0], frozenset((t, al[l], h) for (t, l, h) in key[1])) + tuple(key[2:])
    return r


def tr_act(al, act):
    """the same action with every label rendered through the alphabet"""
    if al is None:
        return act
    ck = (id(al), id(act))
    hit = _TRC.get(ck)
    if hit is not None and hit[0] is act:
        return hit[1]
    a = dict(act)
    _TRC[ck] = (act, a)
    if "edges" in a:
        a["edges"] = tr_edges(al, a["edges"])
    if "l" in a:
        a["l"] = al[a["l"]]
    if "ls" in a:
        a["ls"] = [al[l] for l in a["ls"]]
    for k in ("e1", "e2"):
        if k in a:
            a[k] = [a[k][0], al[a[k][1]], a[k][2]]
    if "m" in a:
        a["m"] = {al[k]: al[v] for k, v in dict(a["m"]).items()}
    return a


def key_of(st):
    return (frozenset(st["vs"]), frozenset(tuple(e) for e in st["E"]), bool(st.get("built", True)))


def fsa_mod():
    from geometry_tools.automata import fsa
    return fsa


def _lists_of(d):
    return d.items()


_ATOMS = frozenset((int, str, float, bool, type(None), bytes, complex, type, range, type(len), type(lambda: 0)))


_PLAIN = {}


def _is_plain(t):
    r = _PLAIN.get(t)
    if r is None:
        r = (getattr(t, "__module__", "").startswith("geometry_tools") and getattr(t, "__deepcopy__", None) is None
             and t.__reduce_ex__ is object.__reduce_ex__ and t.__reduce__ is object.__reduce__
             and t.__getstate__ is object.__getstate__ and getattr(t, "__setstate__", None) is None
             and not hasattr(t, "__slots__"))
        _PLAIN[t] = r
    return r


def clone(x, memo=None):
    """copy.deepcopy specialised to what an FSA is made of (plain objects, dict, defaultdict, list and atoms),
    used only to branch the exploration of histories.  Same contract as deepcopy: one copy per distinct object
    (list aliasing between the views is preserved), dictionary kinds, default factories and insertion order are
    kept; anything it does not know (other containers, classes with their own __deepcopy__ / __reduce__) is
    handed to copy.deepcopy with the same memo."""
    if memo is None:
        memo = {}
    t = type(x)
    if t in _ATOMS:
        return x
    y = memo.get(id(x))
    if y is not None:
        return y
    if t is list:
        y = []
        memo[id(x)] = y
        for e in x:
            y.append(e if type(e) in _ATOMS else clone(e, memo))
    elif t is dict:
        y = {}
        memo[id(x)] = y
        for k, v in x.items():
            y[k if type(k) in _ATOMS else clone(k, memo)] = v if type(v) in _ATOMS else clone(v, memo)
    elif t is _defaultdict:
        y = _defaultdict(x.default_factory if type(x.default_factory) in _ATOMS else clone(x.default_factory, memo))
        memo[id(x)] = y
        for k, v in x.items():
            y[k if type(k) in _ATOMS else clone(k, memo)] = v if type(v) in _ATOMS else clone(v, memo)
    elif _is_plain(t):
        # a plain object: deepcopy would rebuild it with __new__ and a deep copy of its __dict__
        y = t.__new__(t)
        memo[id(x)] = y
        y.__dict__.update(clone(x.__dict__, memo))
    else:
        y = copy.deepcopy(x, memo)
    return y


def fingerprint(f):
    ids = {}

    def lid(l):
        return ids.setdefault(id(l), len(ids))

    def kind(d):
        fac = getattr(d, "default_factory", None)
        return (type(d).__name__, getattr(fac, "__name__", None))

    g = tuple((v, kind(d), tuple(d.items())) for v, d in f.graph_dict.items())
    o = tuple((v, kind(d), tuple((w, lid(l), tuple(l)) for w, l in d.items()))
              for v, d in f.out_dict.items())
    i = tuple((v, kind(d), tuple((w, lid(l), tuple(l)) for w, l in d.items()))
              for v, d in f.in_dict.items())
    return hash((g, o, i, kind(f.graph_dict), kind(f.out_dict), kind(f.in_dict),
                 tuple(f.start_vertices)))


def project_check(f, vs, E):
    """Compare every redundant view of `f` with the abstract state (vs, E).
    E is a set of (tail, label, head). Returns None or (clause, detail)."""
    vs = set(vs)
    want = sorted(E, key=repr)
    nout = {v: set() for v in vs}
    nin = {v: set() for v in vs}
    for (t, l, h) in E:
        nout[t].add(h)
        nin[h].add(t)
    gd, od, idd = f.graph_dict, f.out_dict, f.in_dict
    # label view
    if set(gd.keys()) != vs:
        return ("label_view.vertices", "graph_dict keys %r != %r" % (sorted(gd.keys(), key=repr), sorted(vs, key=repr)))
    got = sorted(((v, l, w) for v, d in gd.items() for l, w in d.items()), key=repr)
    if got != want:
        return ("label_view.edges", "graph_dict edges %r != %r" % (got, want))
    # outgoing view
    if set(od.keys()) != vs:
        return ("out_view.vertices", "out_dict keys %r != %r" % (sorted(od.keys(), key=repr), sorted(vs, key=repr)))
    got = sorted(((v, l, w) for v, d in od.items() for w, ls in d.items() for l in ls), key=repr)
    if got != want:
        return ("out_view.edges", "out_dict edges %r != %r" % (got, want))
    for v in vs:
        if set(od[v].keys()) != nout[v]:
            return ("out_view.neighbors", "out_dict[%r] lists neighbours %r, edges say %r"
                    % (v, sorted(od[v].keys(), key=repr), sorted(nout[v], key=repr)))
    # incoming view
    if not set(idd.keys()) <= vs:
        return ("in_view.vertices", "in_dict mentions %r outside %r" % (sorted(idd.keys(), key=repr), sorted(vs, key=repr)))
    got = sorted(((w, l, v) for v, d in idd.items() for w, ls in d.items() for l in ls), key=repr)
    if got != want:
        return ("in_view.edges", "in_dict edges %r != %r" % (got, want))
    for v in list(idd.keys()):
        if set(idd[v].keys()) != nin[v]:
            return ("in_view.neighbors", "in_dict[%r] lists neighbours %r, edges say %r"
                    % (v, sorted(idd[v].keys(), key=repr), sorted(nin[v], key=repr)))
    return None


def query_battery(f, vs, E):
    """Every read-only query of the public API against its specified value
    (operators NeighborsOut, NeighborsIn, EdgeLabels, HasEdge, ... of FSA.tla).
    Returns None or (clause, detail)."""
    vs = sorted(set(vs), key=repr)
    E = set(E)
    if set(f.vertices()) != set(vs):
        return ("vertices()", "%r" % (list(f.vertices()),))
    got = sorted(f.edges(with_labels=True), key=repr)
    want = sorted(((t, h, l) for (t, l, h) in E), key=repr)
    if got != want:
        return ("edges(with_labels)", "%r != %r" % (got, want))
    got = sorted(f.edges(), key=repr)
    want2 = sorted(((t, h) for (t, l, h) in E), key=repr)
    if got != want2:
        return ("edges()", "%r != %r" % (got, want2))
    for v in vs:
        want = sorted(((t, h, l) for (t, l, h) in E if t == v), key=repr)
        got = sorted(f.edges_out(v), key=repr)
        if got != want:
            return ("edges_out", "edges_out(%r) = %r != %r" % (v, got, want))
        want = sorted(((t, h, l) for (t, l, h) in E if h == v), key=repr)
        got = sorted(f.edges_in(v), key=repr)
        if got != want:
            return ("edges_in", "edges_in(%r) = %r != %r" % (v, got, want))
    for t in vs:
        for h in vs:
            labs = sorted((l for (a, l, b) in E if a == t and b == h), key=repr)
            got = f.has_edge(t, h)
            if bool(got) != bool(labs):
                return ("has_edge", "has_edge(%r,%r) = %r, labels %r" % (t, h, got, labs))
            got = sorted(f.edge_labels(t, h), key=repr)
            if got != labs:
                return ("edge_labels", "edge_labels(%r,%r) = %r != %r" % (t, h, got, labs))
            try:
                got = f.edge_label(t, h)
                if len(labs) != 1 or got != labs[0]:
                    return ("edge_label", "edge_label(%r,%r) = %r, labels %r" % (t, h, got, labs))
            except ValueError:
                if len(labs) == 1:
                    return ("edge_label", "edge_label(%r,%r) raised, labels %r" % (t, h, labs))
    for v in vs:
        want = {h for (t, l, h) in E if t == v}
        got = set(f.neighbors_out(v))
        if got != want:
            return ("neighbors_out", "neighbors_out(%r) = %r != %r" % (v, sorted(got, key=repr), sorted(want, key=repr)))
        want = {t for (t, l, h) in E if h == v}
        got = set(f.neighbors_in(v))
        if got != want:
            return ("neighbors_in", "neighbors_in(%r) = %r != %r" % (v, sorted(got, key=repr), sorted(want, key=repr)))
    # acceptance queries must agree with a walk in E and must not move the object
    start = f.start_vertices[0] if f.start_vertices else None
    if start in vs:
        labels = sorted({l for (_, l, _) in E}, key=repr) + ["z"]
        step = {(t, l): h for (t, l, h) in E}
        words = [[]] + [[a] for a in labels] + [[a, b] for a in labels for b in labels]
        single = all(isinstance(l, str) and len(l) == 1 for l in labels)
        for w in words:
            if single:
                w = "".join(w)
            cur = start
            for ch in w:
                cur = step.get((cur, ch))
                if cur is None:
                    break
            got = f.accepts(w)
            if bool(got) != (cur is not None):
                return ("accepts", "accepts(%r) = %r, walk ends at %r" % (w, got, cur))
    return None


def apply_action(f, act, start=0):
    """Perform spec action `act` (a dict from an EMIT line) on FSA object `f` (None before
    the constructor).  Returns the object under test after the action."""
    FSA = fsa_mod().FSA
    a = act["a"]
    if a == "build_empty":
        return FSA(start_vertices=[start])
    if a == "build_graph_dict":
        d = {k: {} for k in act["keys"]}
        for (t, l, h) in act["edges"]:
            d[t][l] = h
        return FSA(d, start_vertices=[start])
    if a == "build_out_dict":
        d = {k: {} for k in act["keys"]}
        for (t, l, h) in act["edges"]:
            d[t].setdefault(h, []).append(l)
        return FSA(d, start_vertices=[start], graph_dict=False)
    if a == "add_vertices":
        f.add_vertices(list(act["vertices"]))
    elif a == "add_edge":
        f.add_edges([(act["t"], act["h"], act["l"])])
    elif a == "add_edge_list":
        f.add_edges([(act["t"], act["h"], list(act["ls"]))], elist=True)
    elif a == "add_two_edges":
        e1, e2 = act["e1"], act["e2"]
        f.add_edges([(e1[0], e1[2], e1[1]), (e2[0], e2[2], e2[1])])
    elif a == "delete_vertex":
        f.delete_vertex(act["v"])
    elif a == "delete_vertices":
        f.delete_vertices(list(act["vertices"]))
    elif a == "recurrent_inplace":
        r = f.recurrent(inplace=True)
        if r is not None:
            raise AssertionError("recurrent(inplace=True) returned %r" % (r,))
    elif a == "rename_inplace":
        r = f.rename_generators(dict(act["m"]), inplace=True)
        if r is not None:
            raise AssertionError("rename_generators(inplace=True) returned %r" % (r,))
    elif a == "copy":
        return copy.deepcopy(f)
    elif a == "query":
        pass
    else:
        raise KeyError(a)
    return f
