"""C05 (D): recording of random Representation histories from the real object (code -> spec)
and their validation by TLC against spec/rep/RepTrace.tla."""
import json
import os
import random
import re

import numpy as np

from . import core
from . import rep_common as rc
from . import rep_random as rr
from .rep_common import Mode

LIMIT = 2 ** 22     # len * (product of norms): exact in TLC's 32-bit integers and float error << 1e-6


class NotInteger(Exception):
    pass


def ints(x):
    a = rc.plain(x)
    r = np.round(np.real(a))
    if a.shape == () or not np.all(np.isfinite(a)) or not np.allclose(a, r, rtol=0, atol=1e-6):
        raise NotInteger(rc.show(a))
    return r.astype("int64").tolist()


class Recorder:
    def __init__(self, rng, length, mode):
        self.rng, self.length, self.mode = rng, length, mode
        self.n = rng.choice([1, 2, 2, 3, 3, 4])
        self.k = rng.randint(2, 4 if self.n <= 3 else 2)
        self.lower = list(rc.LOWER[:self.k])
        self.letters = self.lower + [l.upper() for l in self.lower]
        self.events = []
        self.rep = rc.new_rep(mode)
        self.der = None
        self.norm = {}      # letter -> magnitude bound of the stored matrix
        self.dnorm = {}
        self.seen, self.dseen = [], []     # words already evaluated on the original / derived object
        self.back = {mode.name(l): l for l in self.letters}

    def dict_of(self, rep):
        if rep is None:
            return {}
        return {self.back[nm]: ints(m) for nm, m in rep.generators.items()}

    def log(self, op, **kw):
        ev = dict(op=op, **kw)
        ev["post"] = self.dict_of(self.rep)
        ev["dpost"] = self.dict_of(self.der)
        self.events.append(ev)

    def rand_matrix(self):
        return rr.rand_unimodular(self.rng, self.n, self.rng.randint(1, 2))

    def rand_word(self, norms, maxlen=12, seen=None):
        """a word over the stored letters; half of the time one that was already evaluated on this
        object (so the same word is evaluated before and after later assignments), and short words
        with inverse letters are frequent"""
        avail = [l for l in self.letters if l in norms]
        for _ in range(20):
            if seen and self.rng.random() < 0.5:
                w = list(self.rng.choice(seen))
                if any(x not in norms for x in w):
                    continue
            else:
                top = maxlen if self.rng.random() < 0.5 else min(maxlen, 3)
                w = [self.rng.choice(avail) for _ in range(self.rng.randint(0, top))]
            p = 1
            for x in w:
                p *= norms[x]
            if p * max(1, len(w)) < LIMIT:
                if seen is not None and w not in seen:
                    seen.append(w)
                    del seen[:-12]
                return w
        return []

    def do_set(self, rep, norms, op):
        l = self.rng.choice(self.letters)
        M = self.rand_matrix()
        self.mode.assign(rep, l, self.mode.cast(M, len(self.events)))
        norms[l] = rr.mnorm(M)
        norms[rc.swapcase(l)] = rr.mnorm(rr.int_inverse(M))
        self.log(op, name=l, M=M.tolist())

    def step(self):
        rng, mode = self.rng, self.mode
        ops = ["set"] * 3 + (["eval"] * 6 + ["elements", "derive", "diff", "diff"] if self.norm else [])
        if self.der is not None:
            ops += ["setder", "deval", "deval", "deval"]
        op = rng.choice(ops)
        if op == "set":
            self.do_set(self.rep, self.norm, "set")
        elif op == "setder":
            self.do_set(self.der, self.dnorm, "setder")
        elif op == "eval":
            w = self.rand_word(self.norm, seen=self.seen)
            form = rng.choice(rc.word_forms(self.rep, mode, tuple(w)))
            self.log("eval", w=w, res=ints(form[1]()), form=form[0])
        elif op == "deval":
            w = self.rand_word(self.dnorm, 8, seen=self.dseen)
            dm = mode      # copy / dual / conjugate / compose parse words as their source does
            form = rng.choice(rc.word_forms(self.der, dm, tuple(w)))
            self.log("deval", w=w, res=ints(form[1]()), form=form[0])
        elif op == "elements":
            ws = [self.rand_word(self.norm, 6, seen=self.seen) for _ in range(rng.randint(1, 4))]
            res = rc.plain(self.rep.elements([mode.word(tuple(w)) for w in ws]))
            self.log("elements", ws=ws, res=[ints(m) for m in res])
        elif op == "derive":
            kind = rng.choice(["copy", "dual", "conjugate", "compose_id", "compose_invT"])
            k = dict(kind=kind, C=[], m=0)
            cn = ci = 1
            if kind == "conjugate":
                C = rr.rand_unimodular(rng, self.n, 2)
                k["C"] = C.tolist()
                cn, ci = rr.mnorm(C), rr.mnorm(rr.int_inverse(C))
            from .props import c05
            self.der = c05.routes_for_kind(self.rep, k, mode, False)[0][1]()
            self.dseen = []
            if kind in ("dual", "compose_invT"):
                self.dnorm = {l: self.norm[rc.swapcase(l)] for l in self.norm}
            else:
                self.dnorm = {l: self.norm[l] * cn * ci for l in self.norm}
            self.log("derive", kind=k)
        elif op == "diff":
            if mode.naming != "single" or mode.parse is False:
                return
            w = self.rand_word(self.norm, 6, seen=self.seen)
            if not w:
                return
            s = "".join(w)
            lowers = list(self.rep.asym_gens())
            D = np.asarray(self.rep.differential(s))
            n = self.n
            if D.shape != (n, n * len(lowers)):
                raise NotInteger("differential(%r) has shape %r" % (s, D.shape))
            self.log("diff", w=w, res={g: ints(D[:, i * n:(i + 1) * n]) for i, g in enumerate(lowers)})

    def run(self):
        for _ in range(self.length):
            self.step()
        return dict(n=self.n, events=self.events)


MODES = [Mode("single", None, "lower", "float"), Mode("single", None, "lower", "mixed"),
         Mode("multi", None, "lower", "int"), Mode("long", False, "lower", "float"),
         Mode("digit", None, "lower", "float", via="method"), Mode("shapes", False, "lower", "mixed")]

_ACC = re.compile(r'^"ACCEPT (\d+)"')
_AT = re.compile(r'^"AT (\d+) (\d+)"')


def validate(run, traces, name, verbose=False):
    wd = os.path.join(run.work, name)
    os.makedirs(wd, exist_ok=True)
    tf = os.path.join(wd, "traces.json")
    with open(tf, "w") as f:
        json.dump(traces, f)
    c = core.cfg(init="TraceInit", next_="TraceNext", invariants=["Coherent", "Accepted"], view="TraceView")
    env = {"TRACE_FILE": tf}
    if verbose:
        env["TRACE_VERBOSE"] = "1"
    r = run.tlc("rep/RepTrace.tla", c, name=name, workers=min(4, core.NCPU), env_extra=env, emit_prefix="\x00none")
    acc, at = set(), {}
    for line in r.stdout.splitlines():
        m = _ACC.match(line)
        if m:
            acc.add(int(m.group(1)) - 1)
        m = _AT.match(line)
        if m:
            t, l = int(m.group(1)) - 1, int(m.group(2))
            at[t] = max(at.get(t, 0), l)
    return {i: at.get(i) for i in range(len(traces)) if i not in acc}


def brief(ev):
    return {k: v for k, v in ev.items() if k not in ("post", "dpost", "res")}


def record(run, quick):
    """drive live objects through seeded random histories; returns (traces, modes)"""
    rng = random.Random(run.seed * 104729 + 11)
    n_hist, length = (60, 30) if quick else (600, 40)
    traces, modes = [], []
    for i in range(n_hist):
        mode = MODES[i % len(MODES)]
        rec = Recorder(rng, length, mode)
        try:
            traces.append(rec.run())
            modes.append(str(mode))
        except NotInteger as e:
            hist = [brief(ev) for ev in rec.events[-4:]]
            run.violation("trace:%s:%s" % (mode, json.dumps(hist, sort_keys=True)[:300]), "trace:non_integer_result",
                          dict(mode=str(mode), after=hist, observed=str(e)))
        except Exception as e:      # the library raised on an in-domain call
            import traceback
            tb = traceback.format_exc().splitlines()
            if not any("geometry_tools" in x for x in tb):
                raise
            hist = [brief(ev) for ev in rec.events[-4:]]
            run.violation("trace:%s:%s" % (mode, json.dumps(hist, sort_keys=True)[:300]), "trace:raised",
                          dict(mode=str(mode), after=hist, error="%s: %s" % (type(e).__name__, e)))
    return traces, modes


def finish(run, recorded, rejected):
    traces, modes = recorded
    if not traces:
        return
    n_ok = len(traces) - len(rejected)
    run.traces += n_ok
    run.evaluations += sum(len(t["events"]) for t in traces)
    run.nontrivial_count += n_ok
    run.actions["trace_events"] = sum(len(t["events"]) for t in traces)
    if rejected:
        ids = sorted(rejected)[:10]
        rej2 = validate(run, [traces[i] for i in ids], "RepTrace_diag", verbose=True)
        for j, i in enumerate(ids):
            matched = rej2.get(j) or 0
            evs = traces[i]["events"]
            ev = evs[matched] if matched < len(evs) else None
            hist = [brief(e) for e in evs[:matched + 1]]
            run.violation("trace:%s:%s" % (modes[i], json.dumps(hist[-3:], sort_keys=True)[:300]),
                          "trace:" + (ev["op"] if ev else "?"),
                          dict(mode=modes[i], matched_prefix=matched, rejected_event=ev, history=hist[-6:]))
    t = traces[0]
    run.sample(dict(kind="recorded trace", n=t["n"], mode=modes[0], events=[brief(e) for e in t["events"][:6]]))
    run.extra["traces"] = dict(histories=len(traces), events=sum(len(t["events"]) for t in traces), accepted=n_ok)
