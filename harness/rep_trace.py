def run(run, quick):
    pass
