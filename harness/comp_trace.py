"""Recording of random histories from real composite geometry_tools objects (code -> spec) and
their validation by TLC against spec/comp/CompositeTrace.tla.

Every event is logged with integers only: the call, its arguments, and the projection of the object
after the call (shape, unit ids decoded from proj_data, unit ids decoded independently from
aux_data).  A unit id is k (base unit) or k + 100 a (transformation a applied); theorem
ShortIdsInjective of CompUnits.tla makes the decoding unique."""
import copy
import json
import os
import re
import warnings

import numpy as np

from . import core
from . import comp_common as cc

_ACC = re.compile(r'^"ACCEPT (\d+)"')
_AT = re.compile(r'^"AT (\d+) (\d+)"')


class Decoder:
    """payload -> integer id, for ids with at most one transformation applied"""
    def __init__(self, tabs, cls, dim):
        self.tabs, self.cls, self.dim = tabs, cls, dim
        ids = [i for i in sorted(tabs.units[dim][cls]) if len(i[1]) <= 1]
        self.codes = np.array([i[0] + 100 * (i[1][0] if i[1] else 0) for i in ids])
        self.PR = np.stack([tabs.units[dim][cls][i]["prim"] for i in ids])
        self.DR = np.stack([tabs.units[dim][cls][i]["der"] for i in ids]) if cls in cc.AUX_RANK else None
        self.whole = tabs.whole[cls]

    def id_of(self, code):
        return (code % 100, (code // 100,) if code >= 100 else ())

    def _match(self, devs, tol):
        hit = devs <= tol
        out = []
        for row in hit:
            w = np.nonzero(row)[0]
            out.append(int(self.codes[w[0]]) if len(w) == 1 else (0 if len(w) == 0 else 999))
        return out

    def project(self, obj, tol=cc.TOL):
        """(shape, pc, dc) of a live object; 0 = no unit matches, 999 = ambiguous"""
        shape = [int(x) for x in obj.shape]
        size = int(np.prod(shape)) if shape else 1
        A = np.asarray(obj.proj_data).reshape((size,) + self.PR.shape[1:])
        devs = np.stack([cc.rows_dev(self.whole, A, np.broadcast_to(self.PR[m], A.shape)) for m in range(len(self.codes))], axis=1)
        pc = self._match(devs, tol)
        if self.DR is None:
            if obj.aux_data is not None:
                return shape, pc, [0] * size
            return shape, pc, list(pc)
        if obj.aux_data is None or tuple(obj.aux_data.shape) != tuple(shape) + self.DR.shape[1:]:
            return shape, pc, [0] * size
        AD = np.asarray(obj.aux_data).reshape((size,) + self.DR.shape[1:])
        devs = np.stack([cc.der_dev(self.cls, AD, np.broadcast_to(self.DR[m], AD.shape)) for m in range(len(self.codes))], axis=1)
        dc = self._match(devs, tol)
        return shape, pc, dc


def factorizations(n, rng):
    out = [[n]]
    for a in range(1, n + 1):
        if n % a == 0:
            out.append([a, n // a])
            for b in range(1, n // a + 1):
                if (n // a) % b == 0:
                    out.append([a, b, n // a // b])
    return rng.choice(out)


class Recorder:
    """Drives one object through a random history, logging one event per public call."""

    def __init__(self, tabs, rng, cls, dim, length, query_fn=None, queries=()):
        self.tabs, self.rng, self.cls, self.dim, self.length = tabs, rng, cls, dim, length
        self.dec = Decoder(tabs, cls, dim)
        self.C = cc.lib_class(cls)
        self.K = tabs.K
        self.J = cc.letters(cls)
        self.events = []
        self.obj = None
        self.error = None
        self.query_fn, self.queries = query_fn, list(queries)

    # -- helpers
    def rand_shape(self, maxsize=12):
        rng = self.rng
        while True:
            r = rng.choice([0, 1, 1, 2, 2, 3])
            s = [rng.randint(1, 4) for _ in range(r)]
            if int(np.prod(s)) <= maxsize:
                return s

    def rand_codes(self, n, applied=False):
        rng = self.rng
        return [rng.randint(1, self.K) + (100 * rng.randint(1, self.J) if applied and rng.random() < 0.3 else 0) for _ in range(n)]

    def make(self, shape, codes, route="array"):
        ids = [self.dec.id_of(c) for c in codes]
        return cc.build(self.tabs, self.cls, self.dim, shape, ids, route=route)[0]

    def log(self, op, **kw):
        ev = dict(op=op, **kw)
        s, pc, dc = self.dec.project(self.obj)
        ev["post"] = dict(shape=s, pc=pc, dc=dc)
        self.events.append(ev)
        self.shape, self.pc = s, pc

    def size(self):
        return int(np.prod(self.shape)) if self.shape else 1

    # -- one random step
    def step(self):
        rng = self.rng
        obj = self.obj
        shape = self.shape
        ops = ["copy", "apply", "apply", "reshape", "flatten", "index", "slice", "setitem", "setitem", "setkey", "setkey",
               "swap", "stack", "combine", "astype", "query"]
        op = rng.choice(ops)
        if op == "copy":
            kind = rng.choice(["copy", "deepcopy", "ctor"])
            self.obj = copy.copy(obj) if kind == "copy" else copy.deepcopy(obj) if kind == "deepcopy" else self.C(obj)
            self.log("copy", kind=kind)
        elif op == "astype":
            self.obj = obj.astype("float64")
            self.log("astype", dtype="float64")
        elif op == "query":
            if not self.queries:
                return
            q = rng.choice(self.queries)
            other = self.make(shape, [(c % 100) % self.K + 1 for c in self.pc])
            if not all(self.tabs.units[self.dim][self.cls][self.dec.id_of(c)]["chart0"] for c in self.pc if c not in (0, 999)):
                return
            self.query_fn(q, obj, other, self.cls, self.dim)
            self.log("query", q=q)
        elif op == "apply":
            if any(c >= 100 or c == 0 for c in self.pc):
                return
            mode = rng.choice(["elementwise", "pairwise", "pairwise_reversed"])
            if mode == "elementwise":
                # a shape that broadcasts against the object's: a suffix with some dimensions set to 1,
                # sometimes with one new leading axis
                k = rng.randint(0, len(shape))
                ts = [d if rng.random() < 0.6 else 1 for d in shape[len(shape) - k:]]
                if k == len(shape) and len(ts) < 3 and rng.random() < 0.3:
                    ts = [rng.randint(1, 3)] + ts
            else:
                ts = self.rand_shape(6)
            try:
                bshape = list(np.broadcast_shapes(tuple(shape), tuple(ts))) if mode == "elementwise" else shape + ts
            except ValueError:
                return
            if int(np.prod(bshape)) > 36 or len(bshape) > 4:
                return
            tcell = [rng.randint(1, self.J) for _ in range(int(np.prod(ts)) if ts else 1)]
            T = cc.build_trans(self.tabs, self.cls, self.dim, ts, tcell)
            self.obj = T.apply(obj, broadcast=mode)
            self.log("apply", tshape=ts, tcell=tcell, mode=mode)
        elif op == "reshape":
            s = factorizations(self.size(), rng)
            self.obj = obj.reshape(tuple(s))
            self.log("reshape", shape=s)
        elif op == "flatten":
            self.obj = obj.flatten_to_unit()
            self.log("flatten")
        elif op == "index":
            if not shape:
                return
            ix = [rng.randrange(d) for d in shape[:rng.randint(1, len(shape))]]
            self.obj = obj[tuple(ix)] if len(ix) > 1 or rng.random() < 0.5 else obj[ix[0]]
            self.log("index", ix=ix)
        elif op == "slice":
            if not shape:
                return
            lo = rng.randrange(shape[0])
            hi = rng.randint(lo + 1, shape[0])
            self.obj = obj[lo:hi]
            self.log("slice", lo=lo, hi=hi)
        elif op == "setitem":
            if not shape:
                return
            i = rng.randrange(shape[0])
            tail = shape[1:]
            k = rng.randint(0, len(tail))
            ys = [d if rng.random() < 0.6 else 1 for d in tail[len(tail) - k:]]
            ycell = self.rand_codes(int(np.prod(ys)) if ys else 1, applied=True)
            Y = self.make(ys, ycell)
            as_ = rng.choice(["object", "array"])
            obj[i] = np.array(Y.proj_data) if as_ == "array" else Y
            self.log("setitem", i=i, yshape=ys, ycell=ycell, value=as_)
        elif op == "setkey":
            if not shape:
                return
            n = shape[0]
            tail = shape[1:]
            kind = rng.choice(["neg", "list", "intarray", "mask", "step", "tuple"])
            if kind == "tuple":
                ix = [rng.randrange(d) for d in shape[:rng.randint(1, len(shape))]]
                sub = shape[len(ix):]
                k = rng.randint(0, len(sub))
                ys = [d if rng.random() < 0.6 else 1 for d in sub[len(sub) - k:]]
                ycell = self.rand_codes(int(np.prod(ys)) if ys else 1, applied=True)
                obj[tuple(ix)] = self.make(ys, ycell)
                self.log("settuple", ix=ix, yshape=ys, ycell=ycell)
                return
            if kind == "neg":
                i = rng.randrange(n)
                key, rows = i - n, [i]
            elif kind in ("list", "intarray"):
                rows = rng.sample(range(n), rng.randint(1, n))
                key = rows if kind == "list" else np.array(rows)
            elif kind == "mask":
                m = [rng.random() < 0.5 for _ in range(n)]
                if not any(m):
                    m[rng.randrange(n)] = True
                key, rows = np.array(m), [i for i in range(n) if m[i]]
            else:
                step = rng.choice([2, 3, -1, -2])
                key = slice(None, None, step)
                rows = list(range(n))[key]
            # value: broadcastable to the selected sub-array (an integer key drops the first axis)
            full = ([] if kind == "neg" else [len(rows)]) + tail
            k = rng.randint(0, len(full))
            ys = [d if rng.random() < 0.6 else 1 for d in full[len(full) - k:]]
            ycell = self.rand_codes(int(np.prod(ys)) if ys else 1, applied=True)
            Y = self.make(ys, ycell)
            obj[key] = np.array(Y.proj_data) if rng.random() < 0.5 else Y
            # the specification sees the value with the axis of the selected rows
            if kind == "neg":
                ys2 = [1] + tail
                cell2 = list(np.broadcast_to(np.array(ycell).reshape(ys), tail).reshape(-1)) if tail or ys else ycell
                self.log("setrows", rows=rows, yshape=ys2, ycell=[int(c) for c in cell2], key=kind)
            else:
                self.log("setrows", rows=[int(r) for r in rows], yshape=ys, ycell=ycell, key=kind)
        elif op == "swap":
            if not shape or shape[0] < 2:
                return
            i, j = rng.sample(range(shape[0]), 2)
            tmp = obj[i]
            obj[i] = obj[j]
            obj[j] = tmp
            self.log("swap", i=i, j=j)
        elif op == "stack":
            n = rng.randint(1, 2)
            if self.size() * (n + 1) > 36 or len(shape) >= 3:
                return
            others = [dict(shape=shape, cell=self.rand_codes(self.size(), applied=True)) for _ in range(n)]
            self.obj = self.C([obj] + [self.make(o["shape"], o["cell"]) for o in others])
            self.log("stack", others=others)
        elif op == "combine":
            others = []
            for _ in range(rng.randint(1, 2)):
                s = self.rand_shape(6)
                others.append(dict(shape=s, cell=self.rand_codes(int(np.prod(s)) if s else 1, applied=True)))
            if self.size() + sum(len(o["cell"]) for o in others) > 36:
                return
            self.obj = self.C.combine([obj] + [self.make(o["shape"], o["cell"]) for o in others])
            self.log("combine", others=others)

    def run(self):
        rng = self.rng
        s = self.rand_shape()
        cell = self.rand_codes(int(np.prod(s)) if s else 1)
        route = rng.choice(["array", "array", "list", "object", "fortran", "strided", "intdata"])
        try:
            with warnings.catch_warnings():
                warnings.simplefilter("ignore")
                with np.errstate(all="ignore"):
                    self.obj = self.make(s, cell, route=route)
                    self.log("construct", shape=s, cell=cell, route=route)
                    tries = 0
                    while len(self.events) < self.length and tries < 6 * self.length:
                        tries += 1
                        self.step()
        except core.MachineryFailure:
            raise
        except Exception as e:
            self.error = "%s: %s" % (type(e).__name__, e)
        return self.events


def record(tabs, seed_rng, classes, dims, n, length, query_fn=None, queries=None):
    traces, meta, errors = [], [], []
    for i in range(n):
        cls = classes[i % len(classes)]
        dim = dims[(i // len(classes)) % len(dims)]
        r = Recorder(tabs, seed_rng, cls, dim, length, query_fn, (queries or {}).get(cls, ()))
        ev = r.run()
        if r.error:
            errors.append((cls, dim, [dict((k, v) for k, v in e.items() if k != "post") for e in ev], r.error))
            continue
        traces.append(ev)
        meta.append((cls, dim))
    return traces, meta, errors


def validate(run, traces, name="CompositeTrace", verbose=False):
    wd = os.path.join(run.work, name)
    os.makedirs(wd, exist_ok=True)
    tf = os.path.join(wd, "traces.json")
    with open(tf, "w") as f:
        json.dump(traces, f)
    c = core.cfg(init="TraceInit", next_="TraceNext", invariants=["Coherent", "Accepted"], view="TraceView")
    env = {"TRACE_FILE": tf}
    if verbose:
        env["TRACE_VERBOSE"] = "1"
    r = run.tlc("comp/CompositeTrace.tla", c, name=name, workers=1, env_extra=env, emit_prefix="\x00none")
    acc, at = set(), {}
    for line in r.stdout.splitlines():
        m = _ACC.match(line)
        if m:
            acc.add(int(m.group(1)) - 1)
        m = _AT.match(line)
        if m:
            t, l = int(m.group(1)) - 1, int(m.group(2))
            at[t] = max(at.get(t, 0), l)
    rejected = {i: at.get(i) for i in range(len(traces)) if i not in acc}
    return rejected, r


def validate_and_report(run, traces, meta, errors, clause="trace", name="CompositeTrace"):
    for (cls, dim, hist, err) in errors:
        run.violation("trace:%s:dim%d:%s" % (cls, dim, json.dumps(hist[-3:], sort_keys=True)[:300]), clause + ":raised",
                      dict(cls=cls, dim=dim, history=hist[-6:], error=err))
    if not traces:
        return
    rejected, r = validate(run, traces, name=name)
    run.traces += len(traces) - len(rejected)
    run.evaluations += sum(len(t) for t in traces)
    run.nontrivial_count += sum(len(t) for t in traces)
    for t in traces:
        for e in t:
            run.actions["trace:" + e["op"]] = run.actions.get("trace:" + e["op"], 0) + 1
    if rejected:
        ids = sorted(rejected)[:20]
        rej2, _ = validate(run, [traces[i] for i in ids], name=name + "_diag", verbose=True)
        for j, i in enumerate(ids):
            matched = rej2.get(j) or 0
            ev = traces[i][matched] if matched < len(traces[i]) else None
            hist = [dict((k, v) for k, v in e.items() if k != "post") for e in traces[i][:matched + 1]]
            run.violation("trace:%s:dim%d:%s" % (meta[i][0], meta[i][1], json.dumps(hist[-3:], sort_keys=True)[:300]),
                          clause + ":" + (ev["op"] if ev else "?"),
                          dict(cls=meta[i][0], dim=meta[i][1], matched_prefix=matched, rejected_event=ev, history=hist[-6:]))
    if traces:
        t = traces[min(len(traces) - 1, 3)]
        run.sample(dict(kind="recorded history accepted by CompositeTrace.tla" if 3 not in rejected else "recorded history",
                        cls=meta[min(len(traces) - 1, 3)][0],
                        events=[dict((k, v) for k, v in e.items()) for e in t[:5]]))
    run.extra.setdefault("trace_validation", []).append(dict(histories=len(traces), rejected=len(rejected),
                                                            events=sum(len(t) for t in traces)))
