"""C05 code -> spec on the repository's OWN tests: the suite is run under the external tracing plug-in
(harness/rep_pytest_trace.py) and every Representation history the tests exercise is validated by TLC against
spec/rep/RepSymTrace.tla (generator images as free symbols; see that module for what TLC validates and which
numerical facts are supplied by the recorder)."""
import json
import os
import re
import subprocess
import sys

from . import core

TESTS = ["testing"]
_ACC = re.compile(r'^"ACCEPT (\d+)"')
_AT = re.compile(r'^"AT (\d+) (\d+)"')
_SUMMARY = re.compile(r"(\d+) (passed|failed|errors?)")


def record(run):
    out = os.path.join(run.work, "suite_rep_traces.json")
    os.makedirs(run.work, exist_ok=True)
    env = dict(os.environ, REP_TRACE_OUT=out, PYTHONPATH=core.VERIF + os.pathsep + core.REPO, PYTHONDONTWRITEBYTECODE="1")
    p = subprocess.run([sys.executable, "-m", "pytest", "-q", "-p", "no:cacheprovider", "--continue-on-collection-errors",
                        "-p", "harness.rep_pytest_trace"] + TESTS,
                       cwd=core.REPO, env=env, capture_output=True, text=True, timeout=900)
    if not os.path.exists(out):
        raise core.MachineryFailure("tracing plug-in produced no trace file: %s" % (p.stdout[-500:] + p.stderr[-500:]))
    with open(out) as f:
        data = json.load(f)
    tail = p.stdout.strip().splitlines()[-1] if p.stdout.strip() else ""
    data["pytest"] = {k: int(n) for n, k in _SUMMARY.findall(tail)}
    return data


def validate(run, data, name, verbose=False):
    """returns {history index: matched prefix or None} for the rejected histories"""
    wd = os.path.join(run.work, name)
    os.makedirs(wd, exist_ok=True)
    tf = os.path.join(wd, "traces.json")
    with open(tf, "w") as f:
        # only integers / strings / arrays (TLC's Json module has no null)
        events = [dict(one=h["one"], events=[{k: v for k, v in e.items() if k not in ("synthetic", "via")} for e in h["events"]])
                  for h in data["histories"]]
        json.dump(dict(histories=events, invs=data["invs"], prods=data["prods"]), f)
    c = core.cfg(init="TraceInit", next_="TraceNext", invariants=["AlwaysCoherent", "Accepted"], view="TraceView")
    env = {"TRACE_FILE": tf}
    if verbose:
        env["TRACE_VERBOSE"] = "1"
    r = run.tlc("rep/RepSymTrace.tla", c, name=name, workers=1, env_extra=env, emit_prefix="\x00none")
    acc, at = set(), {}
    for line in r.stdout.splitlines():
        m = _ACC.match(line)
        if m:
            acc.add(int(m.group(1)) - 1)
        m = _AT.match(line)
        if m:
            t, l = int(m.group(1)) - 1, int(m.group(2))
            at[t] = max(at.get(t, 0), l)
    return {i: at.get(i) for i in range(len(data["histories"])) if i not in acc}


def corrupted_clones(hs):
    """(clone history, index of the corrupted event, description): one recorded field changed per clone.
    They are validated in the same TLC batch and MUST be rejected exactly at that event."""
    import copy
    out = []

    def clone(h, j, what, edit):
        c = copy.deepcopy(h)
        edit(c["events"][j])
        if c != h:          # (an involution is its own inverse: some edits change nothing)
            out.append((c, j, what, hs.index(h)))

    def first(op, pred=lambda e: True):
        for h in sorted(hs, key=lambda h: -len(h["events"])):
            for j, e in enumerate(h["events"]):
                if e["op"] == op and pred(e):
                    return h, j
        return None, None

    h, j = first("eval", lambda e: len(e["w"]) >= 2)
    if h:
        clone(h, j, "eval.res replaced by another symbol", lambda e: e.__setitem__("res", e["res"] + 1))
    h, j = first("set", lambda e: len(e["post"]) >= 4)
    if h:
        def swap(e):
            x = e["x"]
            for t in e["post"]:
                if t[1] == x[1]:
                    t[0] = 1 - t[0]       # the image and its inverse stored under each other's name
        clone(h, j, "set.post: letter and inverse letter swapped", swap)
        def stale(e):
            x = e["x"]
            for t in e["post"]:
                if t[1] != x[1] and t[0] == 1:
                    t[2] = e["mi"]        # another generator's inverse letter overwritten
        clone(h, j, "set.post: an unrelated inverse letter changed", stale)
    h, j = first("set")
    if h:
        clone(h, j, "set.mi is not the inverse symbol of set.m", lambda e: e.__setitem__("mi", e["m"]))
    h, j = first("derive")
    if h:
        def dd(e):
            e["ddict"][0][2], e["ddict"][1][2] = e["ddict"][1][2], e["ddict"][0][2]
        clone(h, j, "derive.ddict: images of a letter and of its inverse exchanged", dd)
    h, j = first("elements")
    if h:
        clone(h, j, "elements.res: two results exchanged", lambda e: e["res"].__setitem__(slice(0, 2), e["res"][1::-1]))
    return out


def brief(ev):
    return {k: v for k, v in ev.items() if k not in ("post", "F", "src")}


def run(run):
    data = record(run)
    hs = [h for h in data["histories"] if h["events"]]
    closed = [h["closed"] for h in data["histories"] if h["closed"]]
    data = dict(data, histories=hs)
    n_events = sum(len(h["events"]) for h in hs)
    summary = dict(tests=TESTS, pytest=data["pytest"], instances=len(hs), events=n_events, symbols=data["symbols"],
                   inverse_pairs=len(data["invs"]) // 2, observed_products=len(data["prods"]),
                   closed_outside_projection=len(closed), closed_reasons=sorted(set(closed)),
                   unmodelled_calls=data["unmodelled"], outermost_public_calls=data["outer_calls"],
                   validated_by_TLC="dictionary/history semantics over free symbols: letters present, inverse letter holds the "
                                    "inverse symbol after assignment by either case, other letters untouched, copies are snapshots, "
                                    "evaluation = table product of the CURRENT letter images, derived dictionary = letter-wise image, "
                                    "inverse coherence of every dictionary",
                   checked_numerically_by_recorder="matrix equality up to 1e-9 (interning), inverse pairs, float products of "
                                                   "the stored images along each evaluated word, hom(image) for derive events")
    if not hs:
        summary["accepted"] = 0
        run.extra["suite_trace_validation"] = summary
        return
    clones = corrupted_clones(hs)
    rej_all = validate(run, dict(data, histories=hs + [c[0] for c in clones]), "RepSymTrace_suite", verbose=True)
    demo = []
    for k, (c, j, what, src) in enumerate(clones):
        idx = len(hs) + k
        if src in rej_all and (rej_all[src] or 0) <= j:
            continue        # the recorded history itself is rejected at or before that event: nothing to demonstrate
        if idx not in rej_all or (rej_all[idx] or 0) != j:
            raise core.MachineryFailure("suite trace binding: corrupted clone (%s at event %d) was not rejected at that event: %r"
                                        % (what, j, rej_all.get(idx, "accepted")))
        demo.append(dict(corruption=what, event=j, rejected_at_event=rej_all[idx]))
    summary["corruption_demo"] = demo
    rejected = {i: m for i, m in rej_all.items() if i < len(hs)}
    ok = len(hs) - len(rejected)
    summary.update(accepted=ok, rejected=len(rejected),
                   ops={op: sum(1 for h in hs for e in h["events"] if e["op"] == op)
                        for op in sorted({e["op"] for h in hs for e in h["events"]})})
    run.traces += ok
    run.evaluations += n_events
    run.nontrivial_count += sum(1 for h in hs if len(h["events"]) > 1)
    run.actions["suite_trace_events"] = n_events
    run.extra["suite_trace_validation"] = summary
    if rejected:
        for i in sorted(rejected)[:10]:
            matched = rejected[i] or 0
            evs = hs[i]["events"]
            ev = evs[matched] if matched < len(evs) else None
            hist = [brief(e) for e in evs[:matched + 1]]
            run.violation("suite_trace:%s:%s" % (hs[i]["cls"], json.dumps(hist[-3:], sort_keys=True)[:300]),
                          "suite_trace:" + (ev["op"] if ev else "?"),
                          dict(instance_class=hs[i]["cls"], matched_prefix=matched, rejected_event=ev, history=hist[-6:]))
    longest = max(hs, key=lambda h: len(h["events"]))
    run.sample(dict(kind="history recorded from the repository's tests (symbols = interned matrices)", cls=longest["cls"],
                    events=[brief(e) for e in longest["events"][:6]]))
