"""C03, representation clause: spec/proj/RepAction.tla (integer 3x3 generators, mostly not unimodular, and
Gaussian-integer 2x2 generators) and spec/hyp/HypRepAction.tla (exact isometries) emit, for a pair of generators,
the exact matrix of every word of length <= 3 and the exact images of test points; spec/lib/ActWords.tla the lists
of words (every list of length <= 3 over five words - most contain a repeated word).  Replay: generators are
assigned to a ProjectiveRepresentation / HyperbolicRepresentation in several storage types; rep[w] and every entry
of rep.elements(list) / transformations(list) / isometries(list) must have the right class and composite shape and
act on the points as the spec's matrix acts on their coordinate columns, entry i for word i."""
import json

import numpy as np

from . import core
from . import hyp_common as hc

TOL = 1e-9


def G(z):
    return complex(z[0], z[1])


def cproj_close(a, b, tol=TOL):
    a = np.asarray(a, complex).ravel()
    b = np.asarray(b, complex).ravel()
    if a.shape != b.shape or not np.isfinite(a).all():
        return False
    na, nb = np.linalg.norm(a), np.linalg.norm(b)
    if na == 0 or nb == 0:
        return False
    a, b = a / na, b / nb
    ph = np.vdot(b, a)
    return bool(abs(ph) > 0 and np.abs(a - (ph / abs(ph)) * b).max() <= tol)


def parse_lists(stdout):
    for line in stdout.splitlines():
        if line.startswith('"LISTS '):
            d = json.loads(json.loads(line)[6:])
            return d["words"], sorted(d["lists"], key=lambda l: (len(l), l))
    raise core.MachineryFailure("no LISTS table")


def tlc_job_proj():
    c = core.cfg(init="RepInit", next_="RepNext",
                 invariants=["Homomorphism", "InverseWord", "Cancels", "TableIsProduct", "GensInvertible", "SeparatesConventions",
                             "RichUniverse", "EmitRep"])
    return dict(module="proj/RepAction.tla", cfg=c, name="RepAction", emit_prefix="REP ")


def tlc_job_hyp(n):
    c = core.cfg(init="HRepInit", next_="HRepNext", constants=dict(N=n, MaxLen=0),
                 invariants=["Homomorphism", "InverseWord", "TableIsProduct", "ValuesAreIsometries", "SeparatesConventions", "IntegerPair",
                             "EmitHRep"])
    return dict(module="hyp/HypRepAction.tla", cfg=c, name="HypRepAction_n%d" % n, emit_prefix="HREP ")


def _routes(e):
    """(label, representation class, wrapper class, generator arrays a, b) for one emitted state"""
    from geometry_tools import projective as P
    H = hc.H()
    if "n" in e:                                     # hyperbolic: <<M, d>>
        a, b = hc.spec_matrix(e["a"]), hc.spec_matrix(e["b"])
        out = [("HyperbolicRepresentation/float64", H.HyperbolicRepresentation, H.Isometry, a, b),
               ("ProjectiveRepresentation/float64", P.ProjectiveRepresentation, P.Transformation, a, b)]
        if e["a"][1] == 1 and e["b"][1] == 1:
            ai, bi = np.array(e["a"][0], dtype=np.int64), np.array(e["b"][0], dtype=np.int64)
            out += [("HyperbolicRepresentation/int64", H.HyperbolicRepresentation, H.Isometry, ai, bi),
                    ("ProjectiveRepresentation/int64", P.ProjectiveRepresentation, P.Transformation, ai, bi)]
        return out
    if e["kind"] == "complex":
        a = np.array([[G(z) for z in row] for row in e["a"]], complex)
        b = np.array([[G(z) for z in row] for row in e["b"]], complex)
        return [("ProjectiveRepresentation/complex128", P.ProjectiveRepresentation, P.Transformation, a, b)]
    a, b = np.array(e["a"], float), np.array(e["b"], float)
    ai, bi = np.array(e["a"], dtype=np.int64), np.array(e["b"], dtype=np.int64)
    return [("ProjectiveRepresentation/float64", P.ProjectiveRepresentation, P.Transformation, a, b),
            ("ProjectiveRepresentation/int64", P.ProjectiveRepresentation, P.Transformation, ai, bi),
            ("ProjectiveRepresentation/int64+float64", P.ProjectiveRepresentation, P.Transformation, ai, b),
            ("ProjectiveRepresentation/int32", P.ProjectiveRepresentation, P.Transformation, ai.astype(np.int32), bi.astype(np.int32))]


def replay(run, emits, listinfo):
    from geometry_tools import projective as P
    H = hc.H()
    lwords, lists = listinfo
    for e in emits:
        hyp = "n" in e
        cplx = (not hyp) and e["kind"] == "complex"
        close = cproj_close if cplx else (lambda u, v: hc.proj_close(u, v, TOL))
        if cplx:
            pts = np.array([[G(z) for z in v] for v in e["pts"]], complex)
            conv = lambda v: np.array([G(z) for z in v], complex)
            mconv = lambda M: np.array([[G(z) for z in row] for row in M], complex)
        else:
            pts = np.array(e["pts"], float)
            conv = lambda v: np.array(v, float)
            mconv = (lambda M: hc.spec_matrix(M)) if hyp else (lambda M: np.array(M, float))
        table = {w["w"]: w for w in e["words"]}
        PointCls = H.Point if hyp else P.Point
        for label, Rep, Wrap, a, b in _routes(e):
            gkey = "rep:%s:a=%s:b=%s" % (label, json.dumps(e["a"]), json.dumps(e["b"]))
            # ---- one word at a time
            run.case(key=None, action="rep_word:" + label)
            bad = None
            try:
                rep = Rep()
                rep["a"] = Wrap(a.copy(), column_vectors=True)
                rep["b"] = Wrap(b.copy(), column_vectors=True)
                for w in sorted(table, key=lambda s: (len(s), s)):
                    T = rep[w]
                    if type(T) is not Wrap or tuple(T.shape) != ():
                        bad = ("rep[%r]:type_shape" % w, "%s %r" % (type(T).__name__, T.shape))
                        break
                    if not close(np.swapaxes(np.asarray(T.matrix), -1, -2).reshape(1, -1), mconv(table[w]["M"]).reshape(1, -1)):
                        bad = ("rep[%r]:matrix" % w, "library (columns) %r, spec %r" % (np.asarray(T.matrix).T.tolist(), table[w]["M"]))
                        break
                    img = T @ PointCls(pts.copy())
                    got = np.asarray(img.proj_data)
                    if type(img) is not PointCls or got.shape != pts.shape:
                        bad = ("rep[%r]@points:type_shape" % w, "%s %r" % (type(img).__name__, got.shape))
                        break
                    for i in range(len(pts)):
                        if not close(got[i], conv(table[w]["img"][i])):
                            bad = ("rep[%r]@x" % w, "x=%r: library %r, spec %r" % (e["pts"][i], got[i].tolist(), table[w]["img"][i]))
                            break
                    if bad:
                        break
            except Exception as ex:
                bad = ("raised:rep_word", "%s: %s" % (type(ex).__name__, ex))
            if bad:
                run.violation(gkey, bad[0], dict(route=label, a=e["a"], b=e["b"], observed=bad[1]))
                continue
            # ---- lists of words: entry i is the image of word i
            for li, lst in enumerate(lists):
                ws = [lwords[i - 1] for i in lst]
                run.case(key=None, action="rep_word_list:" + label)
                bad = None
                try:
                    meth = [rep.elements, getattr(rep, "isometries", None) or rep.transformations, rep.transformations][li % 3]
                    E = meth(list(ws))
                    if type(E) is not Wrap or tuple(E.shape) != (len(ws),):
                        bad = ("%s(%r):type_shape" % (meth.__name__, ws), "result is %s of composite shape %r, expected %s of shape %r"
                               % (type(E).__name__, tuple(E.shape), Wrap.__name__, (len(ws),)))
                    else:
                        stack = np.array([pts[j % len(pts)] for j in range(len(ws))])
                        R = E @ PointCls(stack.copy())                 # elementwise: entry j acts on point j
                        got = np.asarray(R.proj_data)
                        if type(R) is not PointCls or got.shape != stack.shape:
                            bad = ("%s(%r)@points:type_shape" % (meth.__name__, ws), "%s %r" % (type(R).__name__, got.shape))
                        for j, w in enumerate(ws):
                            if bad:
                                break
                            if not close(got[j], conv(table[w]["img"][j % len(pts)])):
                                bad = ("%s(%r)[%d]@x" % (meth.__name__, ws, j), "entry %d must be the image of %r; x=%r: library %r, spec %r"
                                       % (j, w, e["pts"][j % len(pts)], got[j].tolist(), table[w]["img"][j % len(pts)]))
                            elif not close(np.swapaxes(np.asarray(E[j].matrix), -1, -2).reshape(1, -1), mconv(table[w]["M"]).reshape(1, -1)):
                                bad = ("%s(%r)[%d]:matrix" % (meth.__name__, ws, j), "entry %d must be the image of %r" % (j, w))
                except Exception as ex:
                    bad = ("raised:rep_word_list", "%s: %s" % (type(ex).__name__, ex))
                if bad:
                    run.violation(gkey + ":list=%s" % json.dumps(ws), bad[0], dict(route=label, a=e["a"], b=e["b"], words=ws, observed=bad[1]))
                    break
    run.traces += len(emits)
    run.nontrivial_count += len(emits)
    for e in emits[:1]:
        ws = sorted(e["words"], key=lambda w: (len(w["w"]), w["w"]))
        run.sample(dict(kind="representation clause (%s)" % ("hyperbolic" if "n" in e else e["kind"]), a=e["a"], b=e["b"], points=e["pts"],
                        words=[w for w in ws if w["w"] in ("aB", "bA", "abA")], n_words=len(ws), n_lists=len(lists),
                        lists_with_repeats=[[lwords[i - 1] for i in l] for l in lists if len(set(l)) < len(l)][:4]))
