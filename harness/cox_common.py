"""Shared pieces of the Coxeter-group checks (C07, C08): families of Coxeter matrices, one TLC
run of spec/cox/CoxeterWalk.tla or CoxeterRep.tla over a batch of matrices, parsing of the
emitted Cayley graph, and construction of the library's CoxeterGroup under a configuration.

Convention shared with the specification: a Coxeter matrix is a list of lists of naturals with
1 on the diagonal and 0 for an infinite label; generators are numbered 1..rank in the
specification and 0..rank-1 here.
"""
import itertools
import json
import os

import numpy as np

from . import core

LABELS7 = [2, 3, 4, 5, 6, 7, 0]
LABELS12 = [2, 3, 4, 5, 6, 7, 8, 9, 10, 11, 12, 0]


# ----------------------------------------------------------------------------------------
# families of matrices
# ----------------------------------------------------------------------------------------
def pairs(rank):
    return list(itertools.combinations(range(rank), 2))


def sym(rank, vals):
    M = [[1] * rank for _ in range(rank)]
    for (i, j), v in zip(pairs(rank), vals):
        M[i][j] = M[j][i] = v
    return M


def all_mats(rank, labels):
    return [sym(rank, c) for c in itertools.product(labels, repeat=len(pairs(rank)))]


def canon(M):
    """representative of a matrix up to relabelling of the generators"""
    rank = len(M)
    best = None
    for p in itertools.permutations(range(rank)):
        key = tuple(M[p[i]][p[j]] for (i, j) in pairs(rank))
        if best is None or key < best:
            best = key
    return best


def up_to_relabelling(rank, labels):
    seen = set()
    out = []
    for c in itertools.product(labels, repeat=len(pairs(rank))):
        M = sym(rank, c)
        k = canon(M)
        if k not in seen:
            seen.add(k)
            out.append(sym(rank, k))
    return out


def random_mats(rng, rank, labels, n, weights=None):
    out = []
    seen = set()
    tries = 0
    while len(out) < n and tries < 50 * n:
        tries += 1
        c = tuple(rng.choices(labels, weights=weights, k=len(pairs(rank))))
        if c in seen:
            continue
        seen.add(c)
        out.append(sym(rank, c))
    return out


# ----------------------------------------------------------------------------------------
# TLC
# ----------------------------------------------------------------------------------------
def run_batch(run, module, mats, rads, name, invariants, action_constraints, workers, constants=None):
    """One TLC run over a batch of matrices. `module` is "CoxeterWalk" or "CoxeterRep".
    Returns (TLCResult, obs, edges) where obs[m] is the list of per-element records of matrix
    m (0-based index into mats) and edges[m] the list of (from_id, g, to_id) with 0-based g."""
    wd = os.path.join(run.work, name)
    wrapper = core.write_module(wd, "CoxBatch_" + name, [module],
                                "MatsDef == %s\nRadDef == %s" % (core.tla_expr(mats), core.tla_expr(rads)))
    c = core.cfg(constants=constants, invariants=invariants, view="View",
                 action_constraints=action_constraints,
                 extra="CONSTANTS\n  Mats <- MatsDef\n  Rad <- RadDef")
    r = run.tlc(wrapper, c, name=name, workers=workers)
    obs = [[] for _ in mats]
    seen = [set() for _ in mats]
    info = {}
    tables = {}
    for line in r.stdout.splitlines():
        if line.startswith('"OBS '):
            o = json.loads(json.loads(line)[4:])
            m = o["m"] - 1
            key = tuple(o["id"])
            if key in seen[m]:          # an invariant may be evaluated twice on one state by two workers
                continue
            seen[m].add(key)
            obs[m].append(o)
        elif line.startswith('"INFO '):
            o = json.loads(json.loads(line)[5:])
            info[o["m"] - 1] = o
        elif line.startswith('"CFG ') or line.startswith('"TRI ') or line.startswith('"DGC ') or line.startswith('"LBT ') or line.startswith('"VAR '):
            s = json.loads(line)
            tables[s[:3]] = json.loads(s[4:])
    edges = [[] for _ in mats]
    for e in r.emits:
        edges[e["m"] - 1].append((tuple(e["f"]), e["g"] - 1, tuple(e["t"])))
    for m in range(len(mats)):
        if not obs[m] or () not in seen[m]:
            raise core.MachineryFailure("TLC emitted no states for matrix %d of batch %s" % (m, name))
    return r, obs, edges, info, tables


# ----------------------------------------------------------------------------------------
# the library's group under a configuration
# ----------------------------------------------------------------------------------------
DIAGRAM_ALPHA = "pqrtu"          # single-letter names for the diagram route

# names of the diagram route by naming style and by the order in which the names FIRST APPEAR in the list of
# edges: alphabetical, reverse alphabetical, neither.  "Each generator can be any hashable object": the style
# "int" uses small integers (1..n, n-1..0, 1..n-1,0), which coincide with the labels 0..n-1 the automaton
# construction uses internally.
NAME_ORDERS = ["sorted", "reversed", "mixed"]
_DIAGRAM_NAMES = {
    ("alpha", "sorted"): list("pqrtu"), ("alpha", "reversed"): list("utrqp"), ("alpha", "mixed"): list("rtpuq"),
    ("alphanum", "sorted"): ["x0", "x1", "x2", "x3", "x4"], ("alphanum", "reversed"): ["x4", "x3", "x2", "x1", "x0"],
    ("alphanum", "mixed"): ["x2", "x0", "x3", "x1", "x4"],
}


def expected_names(rank, route, style, order="sorted"):
    if route == "matrix":
        return list("abcdefgh"[:rank]) if style == "alpha" else ["s%d" % i for i in range(rank)]
    if style == "int":
        return {"sorted": list(range(1, rank + 1)), "reversed": list(range(rank - 1, -1, -1)),
                "mixed": [(i + 1) % rank for i in range(rank)]}[order]
    return _DIAGRAM_NAMES[(style, order)][:rank]


def lib_matrix(M, inf):
    """the integer matrix handed to the library; an infinite label is 0 or a negative number"""
    rank = len(M)
    out = [[0] * rank for _ in range(rank)]
    for i in range(rank):
        for j in range(rank):
            v = M[i][j]
            if v == 0 and inf == "neg":
                v = -1 - ((i + j) % 3)
            out[i][j] = v
    return out


# the diagram is documented as "an iterable of tuples": containers and one-shot iterables alike
DIAGRAM_CONTAINERS = ["list", "tuple", "generator", "zip", "iterator", "map"]


def pack_diagram(edges, container):
    if container == "list":
        return list(edges)
    if container == "tuple":
        return tuple(edges)
    if container == "generator":
        return (e for e in edges)
    if container == "zip":
        return zip([e[0] for e in edges], [e[1] for e in edges], [e[2] for e in edges])
    if container == "iterator":
        return iter(list(edges))
    if container == "map":
        return map(tuple, [list(e) for e in edges])
    raise ValueError(container)


# labels may be handed over as Python / numpy integers or as floats with integral values
# (from_coxeter_matrix accepts "astype(int) == matrix"; a diagram label is "an integer")
LABEL_TYPES = ["int", "float"]


def build_group(M, route="matrix", style="alpha", inf="zero", container="list", labels="int"):
    """CoxeterGroup for the spec matrix M; the generator with spec index i+1 is names[i]."""
    return build_group_ex(M, route, style, inf, container, labels)[:2]


def build_group_ex(M, route="matrix", style="alpha", inf="zero", container="list", labels="int", order="sorted", history="query"):
    return build_group_full(M, route, style, inf, container, labels, order, history)[:3]


def other_labels(LM):
    """a different well formed Coxeter matrix of the same size (what a caller sweeping over matrices writes next)"""
    n = len(LM)
    return [[1 if i == j else (3 if LM[i][j] == 2 else 2) for j in range(n)] for i in range(n)]


def build_group_full(M, route="matrix", style="alpha", inf="zero", container="list", labels="int", order="sorted", history="query"):
    """(group, names, unchanged, consistent).
    history "edit_input_then_query": after the constructor returned, the caller's own array / list of edges is
    overwritten in place with the labels of another Coxeter matrix; the group was determined at construction.
    unchanged(): None, or how the caller's input differs from what the caller last wrote into it.
    consistent(): None, or how the group's coxeter_matrix / ordered_gens disagree with the labels handed over:
    coxeter_matrix[i][j] must be the label of the pair (ordered_gens[i], ordered_gens[j])."""
    from geometry_tools import coxeter
    rank = len(M)
    names = expected_names(rank, route, style, order)
    LM = lib_matrix(M, inf)
    OM = other_labels(LM)
    conv = float if labels == "float" else int
    if route == "matrix":
        arr = np.array(LM, dtype=np.float64 if labels == "float" else np.int64)
        G = coxeter.CoxeterGroup(matrix=arr, generator_style=style)
        if history == "edit_input_then_query":
            arr[...] = np.array(OM)
        keep = arr.copy()

        def unchanged():
            if arr.dtype != keep.dtype or not np.array_equal(arr, keep):
                return "the caller's matrix is now %r, the caller left it as %r" % (arr.tolist(), keep.tolist())
    else:
        def edges(L):
            out = []
            for k, (i, j) in enumerate(pairs(rank)):
                # every pair is listed (label 2 included); all but the first edge are written reversed
                out.append((names[i], names[j], conv(L[i][j])) if k == 0 else (names[j], names[i], conv(L[i][j])))
            return out
        diagram = edges(LM)
        handed = pack_diagram(diagram, container)
        G = coxeter.CoxeterGroup(diagram=handed)
        if history == "edit_input_then_query" and container == "list":
            handed[:] = edges(OM)
            diagram = handed
        keep = list(diagram)

        def unchanged():
            if diagram != keep:
                return "the caller's diagram is now %r, the caller left it as %r" % (diagram, keep)

    def consistent():
        try:
            og = list(G.ordered_gens)
            cm = np.asarray(G.coxeter_matrix)
            if sorted(map(repr, og)) != sorted(map(repr, names)) or cm.shape != (rank, rank):
                return "generators %r, coxeter_matrix of shape %r; handed over: generators %r" % (og, cm.shape, names)
            pos = {g: k for k, g in enumerate(names)}
            want = [[LM[pos[a]][pos[b]] for b in og] for a in og]
            if not np.array_equal(cm, np.array(want)):
                return ("coxeter_matrix %r is not the matrix of the labels handed over for the generators %r (that is %r)%s"
                        % (cm.tolist(), og, want, "; the caller's input was edited after construction" if history != "query" else ""))
        except Exception as e:
            return "%s: %s" % (type(e).__name__, e)
    return G, names, unchanged, consistent


def word_names(w, names):
    """spec word (1-based generator indices) -> list of generator names"""
    return [names[g - 1] for g in w]


def short(M):
    return "[" + ";".join(",".join(str(x) for x in row) for row in M) + "]"
