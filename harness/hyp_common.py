"""Shared pieces for the hyperbolic properties: library constructors for the atoms of
spec/hyp/HypIso.tla, projections and comparisons."""
import math

import numpy as np


def H():
    from geometry_tools import hyperbolic
    return hyperbolic


def J(dim):
    j = np.eye(dim)
    j[0, 0] = -1
    return j


def proj_close(a, b, tol=1e-9):
    """rows of a and b projectively equal (any non-zero scalar)"""
    a = np.asarray(a, float)
    b = np.asarray(b, float)
    if a.shape != b.shape:
        return False
    a2 = a.reshape(-1, a.shape[-1])
    b2 = b.reshape(-1, b.shape[-1])
    na = np.linalg.norm(a2, axis=-1, keepdims=True)
    nb = np.linalg.norm(b2, axis=-1, keepdims=True)
    if (na == 0).any() or (nb == 0).any() or not np.isfinite(a2).all():
        return False
    a2, b2 = a2 / na, b2 / nb
    s = np.sign(np.sum(a2 * b2, axis=-1, keepdims=True))
    return bool((np.abs(a2 - s * b2).max(axis=-1) <= tol).all())


def mat_proj_close(a, b, tol=1e-9):
    """matrices equal up to one global scalar"""
    return proj_close(np.asarray(a, float).reshape(1, -1), np.asarray(b, float).reshape(1, -1), tol)


def spec_matrix(g):
    """<<M, d>> from the spec -> float column matrix M/d"""
    return np.array(g[0], dtype=float) / float(g[1])


def lib_atom(atom, n):
    """Build the library isometry for an atom descriptor of HypIso.tla (dimension n)."""
    h = H()
    k = atom["k"]
    if k == "refl":
        return h.Hyperplane(np.array(atom["v"], dtype=float)).reflection_across()
    if k == "rot":
        return h.Isometry.standard_rotation(math.atan2(atom["b"], atom["a"]), dimension=n)
    if k == "rotin":
        blk = np.eye(n)
        p, q = atom["p"] - 1, atom["q"] - 1
        c, s = atom["a"] / atom["c"], atom["b"] / atom["c"]
        blk[p, p], blk[p, q], blk[q, p], blk[q, q] = c, -s, s, c
        return h.Isometry.elliptic(n, blk)
    if k == "lox":
        return h.Isometry.standard_loxodromic(n, atom["p"] / atom["q"])
    if k == "perm":
        blk = np.zeros((n, n))
        for j, (tgt, sign) in enumerate(atom["s"]):
            blk[tgt - 1, j] = sign
        return h.Isometry.elliptic(n, blk)
    if k == "origin_to":
        return h.Point(np.array(atom["x"], dtype=float)).origin_to()
    if k == "refl_sub":
        # reflection across the hyperplane given by n ideal points (HypIsoHist.tla)
        return h.Subspace(np.array(atom["ideal"], dtype=float)).reflection_across()
    if k == "sl2":
        return h.sl2_iso(np.array(atom["A"], dtype=float))
    if k == "cox":
        return cox_rep(tuple(atom["m"]), n)[cox_gen_name(atom["gen"])]
    raise KeyError(k)


_COX = {}


def cox_gen_name(i):
    return "abcdefgh"[i - 1]


def cox_rep(m, n):
    if (m, n) not in _COX:
        from geometry_tools import coxeter
        if n == 2:
            G = coxeter.TriangleGroup(tuple(m))
        else:
            # linear diagram [p, q, r]
            mat = np.full((n + 1, n + 1), 2)
            np.fill_diagonal(mat, 1)
            for i, lab in enumerate(m):
                mat[i, i + 1] = mat[i + 1, i] = lab
            G = coxeter.CoxeterGroup(matrix=mat)
        _COX[(m, n)] = G.hyperbolic_rep()
    return _COX[(m, n)]


def form_residual(iso):
    """max |R J R^T - J| relative to the size of the matrix (row-matrix convention)"""
    R = np.asarray(iso.matrix, float)
    dim = R.shape[-1]
    res = R @ J(dim) @ np.swapaxes(R, -1, -2) - J(dim)
    return float(np.abs(res).max() / max(1.0, np.abs(R).max() ** 2))


def mink(u, v):
    u, v = np.asarray(u, float), np.asarray(v, float)
    return (u * v).sum(-1) - 2 * u[..., 0] * v[..., 0]
